#!/usr/bin/env python3
"""Apply every seeded change to /repo in turn, run the quick check of its property (and of the extra properties given
in meta.json 'also'), revert, and write seeded/DETECTION.md.  Development tool: never run by a registered check."""
import json
import re
import subprocess
import sys
from pathlib import Path

VERIF = Path(__file__).resolve().parent.parent
import os

# SEED_REPO: a scratch worktree of /repo outside /repo and /verif (the checks are then run with VERIF_REPO pointing at
# it, so /repo itself stays untouched and usable meanwhile); default: /repo itself
REPO = Path(os.environ.get("SEED_REPO", "/repo"))
ENV = dict(os.environ, VERIF_REPO=str(REPO))
rows = []
only = sys.argv[1:]
for d in sorted((VERIF / "seeded").iterdir()):
    if not d.is_dir() or (only and d.name not in only):
        continue
    meta = json.loads((d / "meta.json").read_text())
    prop = meta["property"]
    if subprocess.run(["git", "-C", str(REPO), "diff", "--quiet"]).returncode != 0:
        sys.exit("/repo dirty")
    ap = subprocess.run(["git", "-C", str(REPO), "apply", str(d / "patch.diff")], capture_output=True, text=True)
    if ap.returncode != 0:
        # keep what the last run in which the patch still applied found, and say so
        old = None
        t0 = VERIF / "seeded" / "DETECTION.md"
        if t0.exists():
            for line in t0.read_text().splitlines():
                cells = [c.strip() for c in line.strip().strip("|").split(" | ")]
                if len(cells) >= 3 and cells[0] == d.name and cells[1] == prop and cells[2].startswith("DETECTED"):
                    old = cells
        if old:
            res = old[2] if "earlier repo HEAD" in old[2] else "DETECTED (at an earlier repo HEAD; the patch no longer applies: later repo fixes rewrote the same lines)"
            rows.append((d.name, prop, res, old[3] if len(old) > 3 else "", old[4] if len(old) > 4 else meta.get("summary", "")[:160].replace("|", "/")))
        else:
            rows.append((d.name, prop, "patch does not apply", "", ""))
        continue
    try:
        for p in [prop] + list(meta.get("also", [])):
            r = subprocess.run(["./check", p, "quick"], cwd=VERIF, capture_output=True, text=True, timeout=1800, env=ENV)
            last = [l for l in r.stdout.splitlines() if l.startswith(p + " quick")]
            m = re.search(r"disagreements (\d+), oracle failures (\d+)", last[-1]) if last else None
            viol = [l for l in r.stdout.splitlines() if l.startswith("VIOLATION")]
            how = []
            if m and int(m.group(2)):
                how.append(f"failing input on the real code ({m.group(2)} oracle failures)")
            if m and int(m.group(1)):
                how.append(f"model/implementation correspondence ({m.group(1)} disagreements)")
            if viol and viol[0].endswith("no-failing-input-found"):
                how.append("no-failing-input-found")
            rows.append((d.name, p, "DETECTED" if r.returncode == 1 and viol else f"missed (exit {r.returncode})", "; ".join(how),
                         meta.get("summary", "")[:160].replace("|", "/").replace("\n", " ")))
    finally:
        subprocess.run(["git", "-C", str(REPO), "checkout", "--", "."])
out = ["# Seeded changes and the checks that catch them", "",
       "Each change compiles and passes the 412 tests; `tools/seedtable.py` applies it to /repo, runs the quick check, reverts.", "",
       "| seed | check | result | signal | change |", "|---|---|---|---|---|"]
table = VERIF / "seeded" / "DETECTION.md"
if only and table.exists():
    # partial run: replace the rows of the seeds that were run, keep the rest
    done = {(r[0], r[1]) for r in rows}
    for line in table.read_text().splitlines()[6:]:
        cells = [c.strip() for c in line.strip().strip("|").split(" | ")]
        if len(cells) >= 2 and (cells[0], cells[1]) not in done:
            rows.append(tuple(cells + [""] * (5 - len(cells)))[:5])
    rows.sort()
for r in rows:
    out.append("| " + " | ".join(r) + " |")
table.write_text("\n".join(out) + "\n")
print("\n".join(out[-len(rows):]))
