"""941f4e6 regression: the parameterized-property branch now treats every class that is not
reachable as builtins.<name> as a declared class.  `module`, `NoneType`, `function`, `mappingproxy`
... have __module__ == 'builtins' but are not attributes of the builtins module, so
`value.attr[key](args)` on such a value now enters process_parameterized_method_call and raises.
Demonstrated with the very case d2957c4 repaired - a module handed to an inlined helper - and with
a method declared to return None."""
import ast
import logging
import sys
import types

sys.path.insert(0, sys.argv[1])
from func_adl import ObjectStream  # noqa: E402

logging.disable(logging.CRITICAL)

tools = types.ModuleType("tools")
tools.table = {"cal": 1}


class Event:
    def pt(self) -> float: ...

    def nothing(self) -> None: ...


class ds(ObjectStream[Event]):
    def __init__(self):
        super().__init__(ast.Name(id="ds", ctx=ast.Load()), Event)


def calibrated(x, m):
    return m.table["cal"](x)


bad = 0
try:
    s = ds().Select(lambda e: calibrated(e.pt(), tools))
    q = ast.unparse(s.query_ast)
    print("helper(e.pt(), module) ->", q)
    bad += ".table['cal'](e.pt())" not in q
except Exception as ex:  # noqa
    print(f"helper(e.pt(), module) -> RAISED {type(ex).__name__}: {ex}")
    bad += 1

text = "lambda e: e.nothing().lookup['a'](1)"
try:
    q = ast.unparse(ds().Select(text).query_ast)
    print(text, "->", q)
    bad += q != f"Select(ds, {text})"
except Exception as ex:  # noqa
    print(f"{text} -> RAISED {type(ex).__name__}: {ex}")
    bad += 1
sys.exit(1 if bad else 0)
