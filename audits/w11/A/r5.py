"""09ec453 incomplete: the comparison "with their types all the way down" does not descend into
dictionary *keys* that are tuples, nor into sets / frozensets (nor deque, dataclass instances):
a second QMetaData whose container differs from the first only in the type of such an element is
still dropped and lookup_query_metadata keeps answering with the old value."""
import ast
import collections
import logging
import sys

sys.path.insert(0, sys.argv[1])
from func_adl import ObjectStream  # noqa: E402
from func_adl.ast.meta_data import lookup_query_metadata  # noqa: E402

logging.disable(logging.CRITICAL)


class ds(ObjectStream):
    def __init__(self):
        super().__init__(ast.Name(id="ds", ctx=ast.Load()))


bad = 0
for first, second in [
    ([True], [1]),  # control: repaired by the commit
    ({(1,): "a"}, {(True,): "a"}),
    ({("x", 1.0): [2]}, {("x", 1): [2]}),
    ({1}, {True}),
    (frozenset({1}), frozenset({1.0})),
    ([{1}], [{True}]),
    (collections.deque([1]), collections.deque([True])),
]:
    s = ds().QMetaData({"k": first}).QMetaData({"k": second})
    got = lookup_query_metadata(s, "k")
    stale = repr(got) != repr(second)
    print(f"{first!r} then {second!r}: lookup gives {got!r}{'   <-- old value kept' if stale else ''}")
    bad += stale
sys.exit(1 if bad else 0)
