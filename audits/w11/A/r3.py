"""4e19366 regression: "builtin class" is now decided by `getattr(builtins, cls.__name__) is cls`.
Builtin classes that are not reachable under their name in the builtins module (mappingproxy,
generator, dict_keys, function, NoneType ...) have __module__ == 'builtins', so before the commit
method calls on such values were emitted as written; now they go through process_method_call and
Select raises (no signature / None default / required argument)."""
import ast
import logging
import sys
import types

sys.path.insert(0, sys.argv[1])
from func_adl import ObjectStream  # noqa: E402

logging.disable(logging.CRITICAL)
DictKeys = type({}.keys())


class Event:
    def mp(self) -> types.MappingProxyType: ...

    def gen(self) -> types.GeneratorType: ...

    def keys(self) -> DictKeys: ...

    def fn(self) -> types.FunctionType: ...


class ds(ObjectStream[Event]):
    def __init__(self):
        super().__init__(ast.Name(id="ds", ctx=ast.Load()), Event)


bad = 0
for text in [
    "lambda e: e.mp().get('a')",
    "lambda e: e.gen().close()",
    "lambda e: e.keys().isdisjoint([1])",
    "lambda e: e.fn().__get__(1)",
]:
    try:
        q = ast.unparse(ds().Select(text).query_ast)
        print(f"{text:36} -> {q}")
        bad += q != f"Select(ds, {text})"
    except Exception as ex:  # noqa
        print(f"{text:36} -> RAISED {type(ex).__name__}: {str(ex)[:90]}")
        bad += 1
sys.exit(1 if bad else 0)
