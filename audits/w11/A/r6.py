"""09ec453 (minor) regression: the element-wise descent compares NaN with `!=`, while the container
comparison it replaced uses identity-or-equality.  Giving the *same* metadata object again
(QMetaData({'k': v}) twice, v = [nan] or {'w': (nan,)}) used to be recognised as "nothing new":
no message, the stream keeps its query node.  Now it is logged as 'Overwriting metadata "k" from
its old value of "[nan]" to "[nan]"' and a new query node is made."""
import ast
import logging
import sys

sys.path.insert(0, sys.argv[1])
from func_adl import ObjectStream  # noqa: E402


class ds(ObjectStream):
    def __init__(self):
        super().__init__(ast.Name(id="ds", ctx=ast.Load()))


messages = []


class H(logging.Handler):
    def emit(self, record):
        messages.append(record.getMessage())


log = logging.getLogger("func_adl.object_stream")
log.setLevel(logging.INFO)
log.addHandler(H())
log.propagate = False

bad = 0
nan = float("nan")
for v in ([nan], {"w": (1.0, nan)}):
    messages.clear()
    s1 = ds().QMetaData({"k": v})
    s2 = s1.QMetaData({"k": v})
    same_node = s2.query_ast is s1.query_ast
    print(f"value {v!r} given twice: same query node {same_node}, messages {messages}")
    bad += (not same_node) or bool(messages)
sys.exit(1 if bad else 0)
