"""d2957c4 incomplete: the front end now keeps a module handed to an inlined helper as the object
it is, but the query it produces still cannot be run through simplify_chained_calls: fusing two
Selects copies the lambda with copy.deepcopy (make_args_unique), which again raises
'TypeError: cannot pickle module object'.  (Before the commit Select itself raised.)"""
import ast
import logging
import math
import sys

sys.path.insert(0, sys.argv[1])
from func_adl import ObjectStream  # noqa: E402
from func_adl.ast.function_simplifier import simplify_chained_calls  # noqa: E402

logging.disable(logging.CRITICAL)


class Event:
    def pt(self) -> float: ...


class ds(ObjectStream[Event]):
    def __init__(self):
        super().__init__(ast.Name(id="ds", ctx=ast.Load()), Event)


def helper(x, m):
    return m.sqrt(x)


try:
    s = ds().Select(lambda e: helper(e.pt(), math))
    s = s.Select(lambda v: v + 1)
    print("query built:", ast.unparse(s.query_ast)[:60], "...")
except Exception as ex:  # noqa
    print(f"building the query raised {type(ex).__name__}: {ex}")
    sys.exit(1)
try:
    r = simplify_chained_calls().visit(s.query_ast)
    print("simplified:", ast.unparse(r)[:60], "...")
except Exception as ex:  # noqa
    print(f"simplify_chained_calls raised {type(ex).__name__}: {ex}")
    sys.exit(1)
sys.exit(0)
