"""e08ed1d regression: reserve_arg_names() turns the digits of every arg_<digits> name into an int.
A name with more than 4300 digits (CPython's int<->str limit) makes the outermost visit raise
ValueError; before the commit the simplifier did not look at the names and fused the query."""
import ast
import sys

sys.path.insert(0, sys.argv[1])
from func_adl.ast.function_simplifier import simplify_chained_calls  # noqa: E402

name = "arg_" + "7" * 4400
q = ast.parse(f"Select(Select(ds, lambda e: e.pt() + {name}), lambda x: x + 1)").body[0].value
try:
    r = simplify_chained_calls().visit(q)
except Exception as ex:  # noqa
    print(f"simplify_chained_calls raised {type(ex).__name__}: {str(ex)[:90]}")
    sys.exit(1)
text = ast.unparse(r)
ok = text.count("Select(") == 1 and name in text
print("simplified to one Select that still uses the long name:", ok)
sys.exit(0 if ok else 1)
