"""4e19366 regression: a call of a method that a builtin class defines is no longer handed to
process_method_call at all, also when the value's class is a declared one.  The class-level
func_adl_callback of the declared class (which is run for *every* method call on the object and
typically adds the MetaData a backend needs) is silently skipped:
  - Name(str) with a callback, e.name().upper()
  - a plain declared class with a callback, e.jet().__str__()  (defined by `object`)
Before the commit both queries carried the MetaData node."""
import ast
import logging
import sys

sys.path.insert(0, sys.argv[1])
from func_adl import ObjectStream, func_adl_callback  # noqa: E402

logging.disable(logging.CRITICAL)


def cb(s, a):
    return s.MetaData({"lib": "needed-by-backend"}), a


@func_adl_callback(cb)
class Name(str):
    def first(self) -> str: ...


@func_adl_callback(cb)
class Jet:
    def pt(self) -> float: ...


class Event:
    def name(self) -> Name: ...

    def jet(self) -> Jet: ...


class ds(ObjectStream[Event]):
    def __init__(self):
        super().__init__(ast.Name(id="ds", ctx=ast.Load()), Event)


bad = 0
for text in [
    "lambda e: e.name().first()",  # control: declared method
    "lambda e: e.name().upper()",
    "lambda e: e.jet().pt()",  # control
    "lambda e: e.jet().__str__()",
]:
    try:
        q = ast.unparse(ds().Select(text).query_ast)
    except Exception as ex:  # noqa
        q = f"RAISED {type(ex).__name__}: {ex}"
    has_md = "MetaData(" in q
    print(f"{text:32} -> {q}   [class callback ran: {has_md}]")
    bad += not has_md
sys.exit(1 if bad else 0)
