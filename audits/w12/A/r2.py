"""2d2944f REGRESSION: a method call on a value typed with an alias of a builtin container
(List[int], list[int], Dict[str, int], Tuple[int, float]) now raises AttributeError
("type object 'list' has no attribute '__parameters__'"); before, it was emitted as written."""
import ast
import sys
from typing import Dict, List, Tuple

sys.path.insert(0, sys.argv[1])
from func_adl import ObjectStream  # noqa: E402


class Event:
    def li(self) -> List[int]: ...
    def li585(self) -> list[int]: ...
    def d(self) -> Dict[str, int]: ...
    def tup(self) -> Tuple[int, float]: ...
    def plain(self) -> list: ...


ds = ObjectStream[Event](ast.Name(id="ds", ctx=ast.Load()), Event)
bad = 0
for name, f in {
    "e.li().count(1)": 'lambda e: e.li().count(1)',
    "e.li585().index(1)": 'lambda e: e.li585().index(1)',
    "e.d().get('a')": "lambda e: e.d().get('a')",
    "e.d().keys()": 'lambda e: e.d().keys()',
    "e.tup().count(1)": 'lambda e: e.tup().count(1)',
    "e.plain().count(1)": 'lambda e: e.plain().count(1)',
}.items():
    try:
        r = ds.Select(f)
        print(f"{name:22s} -> {ast.unparse(r.query_ast)}")
    except Exception as ex:
        bad += 1
        print(f"{name:22s} -> RAISES {type(ex).__name__}: {ex}")
if bad:
    print(f"PROBLEM: {bad} method calls on builtin-container-typed values raise")
    sys.exit(1)
sys.exit(0)
