"""2d2944f REGRESSION: a declared class's method wrapped by functools.lru_cache / functools.cache
(or any decorator object that is a non-data descriptor) satisfies inspect.ismethoddescriptor, so
it is now taken for "a method the interpreter implements": its default arguments are no longer
filled in and its return annotation is dropped (Any), so calls that follow are not typed either."""
import ast
import functools
import sys
from typing import Iterable

sys.path.insert(0, sys.argv[1])
from func_adl import ObjectStream  # noqa: E402


class Track:
    def pt(self, scale: float = 1.0) -> float: ...


class Jet:
    @functools.lru_cache
    def cached(self, k: int = 4) -> float: ...

    @functools.cache
    def track(self, i: int = 0) -> Track: ...

    def plain(self, k: int = 4) -> float: ...


class Event:
    def jets(self) -> Iterable[Jet]: ...


ds = ObjectStream[Event](ast.Name(id="ds", ctx=ast.Load()), Event)
r0 = ds.Select(lambda e: e.jets().Select(lambda j: j.plain()))
r1 = ds.Select(lambda e: e.jets().Select(lambda j: j.cached()))
r2 = ds.Select(lambda e: e.jets().Select(lambda j: j.track().pt()))
for r in (r0, r1, r2):
    print(ast.unparse(r.query_ast), "::", r.item_type)
ok = (
    "cached(4)" in ast.unparse(r1.query_ast)
    and r1.item_type == Iterable[float]
    and "track(0).pt(1.0)" in ast.unparse(r2.query_ast)
    and r2.item_type == Iterable[float]
)
if not ok:
    print("PROBLEM: defaults and return types of lru_cache/cache-wrapped methods are lost")
    sys.exit(1)
sys.exit(0)
