"""e26a402 INCOMPLETE (minor): QMetaData's "same types all the way down" comparison now descends
into list/tuple/set/frozenset/dict only. Equal values that differ in an element's type inside any
other container (collections.deque, a dataclass's fields) are still taken to be the same value:
the new value is silently dropped, unlike the same payload in a list."""
import ast
import collections
import dataclasses
import sys

sys.path.insert(0, sys.argv[1])
from func_adl import ObjectStream  # noqa: E402
from func_adl.ast.meta_data import lookup_query_metadata  # noqa: E402


@dataclasses.dataclass(frozen=True)
class Cfg:
    flag: object


def after_second(a, b):
    ds = ObjectStream(ast.Name(id="ds", ctx=ast.Load()))
    return lookup_query_metadata(ds.QMetaData({"k": a}).QMetaData({"k": b}), "k")


bad = 0
for label, a, b in [
    ("list (reference)", [1], [True]),
    ("deque", collections.deque([1]), collections.deque([True])),
    ("dataclass field", Cfg(1), Cfg(True)),
    ("dataclass in a set", {Cfg(1)}, {Cfg(True)}),
]:
    got = after_second(a, b)
    replaced = got is b
    print(f"{label:20s} first={a!r} second={b!r} -> stored {got!r} (replaced: {replaced})")
    if not replaced:
        bad += 1
if bad:
    print(f"PROBLEM: {bad} values differing only in an inner type were not stored")
    sys.exit(1)
sys.exit(0)
