"""2d2944f REGRESSION (minor): calls through an attribute of an interpreter type that is not a
builtin function / method descriptor - getset and member descriptors (int.real, complex.imag,
BaseException.args) or `__class__` - were emitted as written before; now they reach
_fill_in_default_arguments and raise ValueError."""
import ast
import sys

sys.path.insert(0, sys.argv[1])
from func_adl import ObjectStream  # noqa: E402


class MyErr(Exception):
    def code(self) -> int: ...


class Event:
    def c(self) -> complex: ...
    def i(self) -> int: ...
    def s(self) -> str: ...
    def err(self) -> MyErr: ...


ds = ObjectStream[Event](ast.Name(id="ds", ctx=ast.Load()), Event)
bad = 0
for name, f in {
    "e.c().real()": 'lambda e: e.c().real()',
    "e.i().numerator()": 'lambda e: e.i().numerator()',
    "e.s().__class__()": 'lambda e: e.s().__class__()',
    "e.err().args()": 'lambda e: e.err().args()',
}.items():
    try:
        r = ds.Select(f)
        print(f"{name:20s} -> {ast.unparse(r.query_ast)}")
    except Exception as ex:
        bad += 1
        print(f"{name:20s} -> RAISES {type(ex).__name__}: {str(ex)[:110]}")
if bad:
    print(f"PROBLEM: {bad} calls that were emitted as written now raise")
    sys.exit(1)
sys.exit(0)
