"""2d2944f INCOMPLETE: _is_declared_class answers False for a parameterized alias of a declared
generic class (Vec[Jet]: not a class object), so a func_adl_parameterized_call property is silently
not followed on a value of that type - no callback, no MetaData, type Any - while ordinary methods
of Vec[Jet] are followed and the same property on a non-generic class is."""
import ast
import sys
from typing import Generic, TypeVar

sys.path.insert(0, sys.argv[1])
from func_adl import ObjectStream, func_adl_parameterized_call  # noqa: E402

T = TypeVar("T")
ran = []


def cb(s, a, params):
    ran.append(params)
    new_call = ast.Call(
        ast.Attribute(a.func.value, f"aux_{params}", ast.Load()), a.args, a.keywords
    )
    return s.MetaData({"aux": str(params)}), new_call, float


class Jet: ...


class Vec(Generic[T]):
    @func_adl_parameterized_call(cb)
    @property
    def aux(self): ...

    def at(self, i: int = 0) -> T: ...


class Plain:
    @func_adl_parameterized_call(cb)
    @property
    def aux(self): ...


class Event:
    def vec(self) -> Vec[Jet]: ...
    def plain(self) -> Plain: ...


ds = ObjectStream[Event](ast.Name(id="ds", ctx=ast.Load()), Event)
r_plain = ds.Select(lambda e: e.plain().aux["a"]())
n_plain = len(ran)
r_meth = ds.Select(lambda e: e.vec().at())
r_vec = ds.Select(lambda e: e.vec().aux["a"]())
n_vec = len(ran) - n_plain
print("Plain      :", ast.unparse(r_plain.query_ast), "::", r_plain.item_type, "callbacks", n_plain)
print("Vec[Jet].at:", ast.unparse(r_meth.query_ast), "::", r_meth.item_type)
print("Vec[Jet]   :", ast.unparse(r_vec.query_ast), "::", r_vec.item_type, "callbacks", n_vec)
if n_plain == 1 and n_vec == 0:
    print("PROBLEM: the parameterized property is not followed on a Vec[Jet] value")
    sys.exit(1)
sys.exit(0)
