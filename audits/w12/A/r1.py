"""e26a402 REGRESSION: reserve_arg_names no longer reserves arg_N names of 19+ digits, but the
counter does reach them once an 18-digit name (arg_999999999999999999) is present: the generated
binder arg_1000000000000000000 then captures a variable of that name already used by the query."""
import ast
import sys

sys.path.insert(0, sys.argv[1])
import func_adl.ast.function_simplifier as fs  # noqa: E402

near, big = "arg_999999999999999999", "arg_1000000000000000000"
# `big` is a free variable (say a captured outer parameter); `near` a parameter the query uses.
src = (
    f"Select(ds, lambda {near}: "
    f"Select(Select({near}.jets(), lambda x: x.pt()), lambda y: y + {big}))"
)
fs.argument_var_counter = 0
out = fs.simplify_chained_calls().visit(ast.parse(src, mode="eval").body)
print("in :", src)
print("out:", ast.unparse(out))


def free_names(tree):
    bound, free = [], set()

    def go(n, env):
        if isinstance(n, ast.Lambda):
            env = env | {a.arg for a in n.args.args}
        if isinstance(n, ast.Name) and n.id not in env:
            free.add(n.id)
        for c in ast.iter_child_nodes(n):
            go(c, env)

    go(tree, frozenset())
    return free


still_free = big in free_names(out)
print(f"{big} still a free variable after simplification: {still_free}")
if not still_free:
    print("PROBLEM: the free variable was captured by a generated binder of the same name")
    sys.exit(1)
sys.exit(0)
