import sys; sys.path.insert(0, sys.argv[1])
# 8f72987 (regression, minor): a called lambda with a *args / **kw / defaulted keyword-only
# parameter that the call does not feed and the body does not use was folded correctly; now the
# call (and the tuple in it) is left for the backend.
import ast
from func_adl.ast.function_simplifier import simplify_chained_calls
bad = False
for src, want in [("(lambda x, *, k=1: (x, 1))(5)[0]", "5"), ("(lambda x, *a: (x, 1))(5)[0]", "5"), ("(lambda x, **kw: x)(5)", "5")]:
    r = ast.unparse(simplify_chained_calls().visit(ast.parse(src).body[0].value))
    print(src, "=>", r)
    bad = bad or r != want
print("PROBLEM: call no longer folded" if bad else "ok")
sys.exit(1 if bad else 0)
