import sys; sys.path.insert(0, sys.argv[1])
# af4d3c6 (incomplete): the `_followed_in_place` mark stays on the nested lambdas of a finished
# query. Such a lambda object, handed to Select of another stream, is not copied and the earlier
# stream's query is rewritten.
import ast, logging
from typing import Iterable
from func_adl import ObjectStream
logging.disable(logging.CRITICAL)

class Jet:
    def pt(self, scale: float = 1.0) -> float: ...
class Jet2:
    def pt(self, scale: float = 1.0, extra: int = 5) -> float: ...
class Event:
    def Jets(self, name: str = "def") -> Iterable[Jet]: ...

s1 = ObjectStream[Event](ast.Name("e"), Event).Select("lambda e: e.Jets().Select(lambda j: j.pt())")
before = ast.unparse(s1.query_ast)
inner = next(n for n in ast.walk(s1.query_ast) if isinstance(n, ast.Lambda) and n.args.args[0].arg == "j")
print("mark on nested lambda:", getattr(inner, "_followed_in_place", None))
s2 = ObjectStream[Jet2](ast.Name("j2"), Jet2).Select(inner)
after = ast.unparse(s1.query_ast)
print("s1 before:", before); print("s2       :", ast.unparse(s2.query_ast)); print("s1 after :", after)
bad = before != after
print("PROBLEM: earlier stream's query was rewritten" if bad else "ok")
sys.exit(1 if bad else 0)
