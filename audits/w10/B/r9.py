import sys; sys.path.insert(0, sys.argv[1])
# fb34376 (incomplete): only the type of the outermost value is compared. A value inside a list,
# tuple or dictionary that compares equal but has another type is still thrown away.
import ast, logging
from func_adl import ObjectStream
from func_adl.ast.meta_data import lookup_query_metadata
logging.disable(logging.CRITICAL)
s = ObjectStream[int](ast.Name("e"), int)
bad = False
for a, b in [(True, 1), ([True], [1]), ({"n": 1}, {"n": 1.0}), ((1,), (True,))]:
    got = lookup_query_metadata(s.QMetaData({"k": a}).QMetaData({"k": b}), "k")
    print(f"{a!r} then {b!r} -> {got!r}")
    bad = bad or repr(got) != repr(b)
print("PROBLEM: new value inside a container was dropped" if bad else "ok")
sys.exit(1 if bad else 0)
