import sys; sys.path.insert(0, sys.argv[1])
# 348bc47 (incomplete): a field read with ["a"] from a dictionary literal with a repeated key has
# no type at all, while the same read written .a has the type of the last entry.
import ast, logging
from typing import Iterable
from func_adl import ObjectStream
logging.disable(logging.CRITICAL)

class Jet:
    def pt(self, scale: float = 1.0) -> float: ...
class Event:
    def Jets(self, name: str = "def") -> Iterable[Jet]: ...
    def x(self) -> int: ...

s0 = ObjectStream[Event](ast.Name("e"), Event)
attr = s0.Select('lambda e: {"a": e.x(), "a": e.Jets()}.a.Select(lambda j: j.pt())')
sub = s0.Select('lambda e: {"a": e.x(), "a": e.Jets()}["a"].Select(lambda j: j.pt())')
print(".a    :", ast.unparse(attr.query_ast), "->", attr.item_type)
print('["a"] :', ast.unparse(sub.query_ast), "->", sub.item_type)
bad = sub.item_type != Iterable[float] or "pt(1.0)" not in ast.unparse(sub.query_ast)
print("PROBLEM: subscript read of a repeated key is not type followed" if bad else "ok")
sys.exit(1 if bad else 0)
