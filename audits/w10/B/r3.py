import sys; sys.path.insert(0, sys.argv[1])
# d29231e (incomplete): the test is on the module of the value's class, not on where the method
# comes from. A value whose class derives from str still gets str.split's defaults (None, -1).
import ast, logging
from func_adl import ObjectStream
logging.disable(logging.CRITICAL)

class Name(str): ...
class Event:
    def name(self) -> Name: ...
    def plain(self) -> str: ...

s0 = ObjectStream[Event](ast.Name("e"), Event)
print("str value :", ast.unparse(s0.Select("lambda e: e.plain().split()").query_ast))
bad = False
try:
    r = ast.unparse(s0.Select("lambda e: e.name().split()").query_ast)
    print("Name value:", r)
    bad = "split()" not in r
except Exception as ex:
    print("Name value:", type(ex).__name__, ex)
    bad = True
print("PROBLEM: builtin method of a str subclass is not emitted as written" if bad else "ok")
sys.exit(1 if bad else 0)
