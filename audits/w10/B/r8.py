import sys; sys.path.insert(0, sys.argv[1])
# 886d775 (regression, minor): the added generic_visit puts one more frame on the stack per AST
# level. extract_metadata used to handle as deep a chain as the other passes (about 245 calls at
# the default recursion limit); now it stops at about 195, so a chain of 220 calls that
# remove_empty_metadata and the simplifier handle raises RecursionError in extract_metadata.
import ast
from func_adl.ast.meta_data import extract_metadata, remove_empty_metadata
from func_adl.ast.function_simplifier import simplify_chained_calls
sys.setrecursionlimit(1000)
def chain(n):
    a = ast.Name("ds", ast.Load())
    for i in range(n):
        a = ast.Call(ast.Name("Select", ast.Load()), [a, ast.parse("lambda x: x + 1").body[0].value], [])
    return a
def runs(f, n):
    try:
        f(chain(n)); return True
    except RecursionError:
        return False
n = 220
others = runs(remove_empty_metadata, n) and runs(lambda a: simplify_chained_calls().visit(a), n)
mine = runs(extract_metadata, n)
print(f"chain of {n}: remove_empty_metadata+simplifier ok={others}, extract_metadata ok={mine}")
bad = others and not mine
print("PROBLEM: extract_metadata is now the pass that overflows the stack first" if bad else "ok")
sys.exit(1 if bad else 0)
