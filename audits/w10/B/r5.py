import sys; sys.path.insert(0, sys.argv[1])
# 8f72987 (regression): the new condition reads .posonlyargs of the arguments node. An arguments
# node built by hand the pre-3.8 way (no posonlyargs) has no such attribute on Python < 3.13;
# the call used to be substituted, now AttributeError.
import ast
from func_adl.ast.function_simplifier import simplify_chained_calls
args = ast.arguments(args=[ast.arg(arg="x")], vararg=None, kwonlyargs=[], kw_defaults=[], kwarg=None, defaults=[])
lam = ast.Lambda(args=args, body=ast.BinOp(ast.Name("x", ast.Load()), ast.Add(), ast.Constant(1)))
call = ast.Call(lam, [ast.Constant(5)], [])
try:
    r = simplify_chained_calls().visit(call)
    print("result:", ast.dump(r)); bad = False
except AttributeError as ex:
    print("AttributeError:", ex); bad = True
print("PROBLEM: called lambda without posonlyargs field raises" if bad else "ok")
sys.exit(1 if bad else 0)
