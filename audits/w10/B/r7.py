import sys; sys.path.insert(0, sys.argv[1])
# 8f72987 (incomplete, defect older than the commit): the same blind spot (only args.args are
# parameters) is still in make_args_unique / visit_Lambda: a keyword-only parameter of a nested
# lambda does not hide an outer parameter of the same name, so the outer argument is
# substituted for it.
import ast
from func_adl.ast.function_simplifier import simplify_chained_calls
src = "(lambda k: Select(seq, lambda x, *, k=1: x + k))(5)"
r = ast.unparse(simplify_chained_calls().visit(ast.parse(src).body[0].value))
print(src, "=>", r)
bad = "+ 5" in r
print("PROBLEM: inner keyword-only parameter k was replaced by the outer argument" if bad else "ok")
sys.exit(1 if bad else 0)
