import sys; sys.path.insert(0, sys.argv[1])
# d29231e (regression): `__module__ == "builtins"` is also true of classes made in a namespace
# without __name__ (exec(src, {})): calls on them are no longer type followed.
import ast, logging
from typing import Iterable
from func_adl import ObjectStream
logging.disable(logging.CRITICAL)

ns = {}
exec('''
from typing import Iterable
class Jet:
    def pt(self, scale: float = 1.0) -> float: ...
class Event:
    def Jets(self, name: str = "def") -> Iterable[Jet]: ...
''', ns)
Event = ns["Event"]
print("Event.__module__ =", Event.__module__)
s = ObjectStream[Event](ast.Name("e"), Event).Select("lambda e: e.Jets().Select(lambda j: j.pt())")
txt = ast.unparse(s.query_ast)
print(txt, "->", s.item_type)
bad = "Jets('def')" not in txt or s.item_type != Iterable[float]
print("PROBLEM: user class with __module__ 'builtins' is treated as a builtin value" if bad else "ok")
sys.exit(1 if bad else 0)
