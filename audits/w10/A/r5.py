import sys; sys.path.insert(0, sys.argv[1])
# af4d3c6 incomplete: the `_followed_in_place` mark is hung on the nested lambda and never taken
# off again, so it stays on the nodes of the finished query. A lambda object taken out of a
# query that was built earlier and handed to Select is therefore not copied, and the earlier
# stream's query is rewritten - the very thing the commit repairs.
import ast
from typing import Iterable

from func_adl import ObjectStream


class Track:
    def pt(self) -> float: ...  # noqa


class Jet:
    def tracks(self) -> Iterable[Track]: ...  # noqa


class Jet2:
    def tracks(self, kind: str = "all") -> Iterable[Track]: ...  # noqa


class Event:
    def Jets(self) -> Iterable[Jet]: ...  # noqa


def L(s):
    return ast.parse(s).body[0].value


ds = ObjectStream[Event](ast.Name(id="e", ctx=ast.Load()), Event)
q1 = ds.Select(L("lambda e: e.Jets().Select(lambda j: j.tracks())"))
before = ast.unparse(q1.query_ast)
nested = q1.query_ast.args[1].body.args[0]  # an ast.Lambda object
print("mark left on the nested lambda:", getattr(nested, "_followed_in_place", False))

js = ObjectStream[Jet2](ast.Name(id="js", ctx=ast.Load()), Jet2)
js.Select(nested)
after = ast.unparse(q1.query_ast)
print("q1 before:", before)
print("q1 after :", after)
if before != after:
    print("PROBLEM: the earlier stream's query was rewritten")
    sys.exit(1)
sys.exit(0)
