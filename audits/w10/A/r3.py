import sys; sys.path.insert(0, sys.argv[1])
# e438939 regression (minor, a consequence of the stricter condition): a helper that has a
# *args / **kwargs parameter which the call does not feed was inlined correctly before
# (lambda j: first_pt(j) -> lambda j: j.pt()); now the call of the lambda is left in the query.
import ast

from func_adl.util_ast import parse_as_ast


def first_pt(j, *rest):
    return j.pt()


def first_eta(j, **kw):
    return j.eta()


def P(f):
    return ast.unparse(parse_as_ast(f))


got1 = P(lambda j: first_pt(j))
got2 = P(lambda k: first_eta(k))
bad = False
for label, got, want in [
    ("*rest", got1, "lambda j: j.pt()"),
    ("**kw", got2, "lambda k: k.eta()"),
]:
    print(f"{label}: {got}")
    if got != want:
        print(f"PROBLEM: expected {want} (the result before e438939)")
        bad = True
sys.exit(1 if bad else 0)
