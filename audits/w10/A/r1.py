import sys; sys.path.insert(0, sys.argv[1])
# 2fbea4b regression: the argument of an inlined helper is deep-copied at every use.
# A module handed to a helper (a legal capture: ModuleType is in g_legal_capture_types)
# cannot be deep-copied, so building the query now raises TypeError. Before the commit the
# query was built.
import ast
import math

from func_adl import ObjectStream


class Evt:
    def pt(self) -> float: ...  # noqa


def helper(x, lib):
    return lib.sqrt(x)


ds = ObjectStream[Evt](ast.Name(id="ds", ctx=ast.Load()), Evt)
try:
    q = ds.Select(lambda e: helper(e.pt(), math))
except TypeError as e:
    print(f"PROBLEM: Select raised TypeError: {e}")
    sys.exit(1)
print("ok: query built:", ast.unparse(q.query_ast)[:60], "...")
sys.exit(0)
