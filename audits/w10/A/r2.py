import sys; sys.path.insert(0, sys.argv[1])
# 2fbea4b regression (minor): copy.deepcopy of the argument at every use needs several Python
# frames per AST level and is repeated at every nesting level of helpers.
#  (a) an argument that is a 300 deep attribute chain now hits RecursionError (default limit);
#      the NodeTransformer alone coped with it before the commit;
#  (b) n nested helper calls copy O(n^2) nodes: the time per level grows with n.
import ast
import time

from func_adl.util_ast import _resolve_called_lambdas


def resolve(src):
    return _resolve_called_lambdas().visit(ast.parse(src, mode="eval").body)


bad = False
chain = "e" + ".a" * 300
try:
    r = resolve(f"(lambda x: x.pt())({chain})")
    print("ok: 300 deep argument inlined")
except RecursionError:
    print("PROBLEM: RecursionError inlining a helper whose argument is a 300 deep chain")
    bad = True


def nest(n):
    src = "y"
    for _ in range(n):
        src = f"(lambda x: x.f())({src})"
    t = time.perf_counter()
    resolve(src)
    return time.perf_counter() - t


nest(10)
t20, t80 = min(nest(20) for _ in range(3)), min(nest(80) for _ in range(3))
ratio = t80 / t20
print(f"nested helpers: 20 levels {t20*1e3:.2f} ms, 80 levels {t80*1e3:.2f} ms, ratio {ratio:.1f}")
if ratio > 9:  # linear would be about 4, quadratic about 16
    print("PROBLEM: time grows quadratically with the nesting depth")
    bad = True
sys.exit(1 if bad else 0)
