import sys; sys.path.insert(0, sys.argv[1])
# e438939 incomplete: a called lambda with keyword-only / positional-only / *args parameters is
# now left in place, but those parameters are still not treated as binders by the passes that
# walk through it (_resolve_called_lambdas.visit_Lambda, _rewrite_captured_vars.visit_Lambda and
# _free_names only look at args.args). An outer argument or a captured variable of the same
# name is substituted for the parameter inside the lambda that was "left unchanged".
import ast

from func_adl.util_ast import _resolve_called_lambdas, parse_as_ast

bad = False

# (a) outer substitution reaches into the body under a keyword-only / positional-only binder
for src in [
    "(lambda a: (lambda x, *, a=1: x + a)(a))(5)",
    "(lambda a: (lambda a, /: a + 1)(7))(5)",
    "(lambda a: (lambda *a: len(a))(7, 8))(5)",
]:
    want = eval(src)
    out = ast.unparse(_resolve_called_lambdas().visit(ast.parse(src, mode="eval").body))
    try:
        got = eval(out)
    except Exception as e:  # noqa
        got = f"{type(e).__name__}: {e}"
    print(f"{src}  ->  {out}   value {want!r} -> {got!r}")
    if got != want:
        print("PROBLEM: value changed")
        bad = True

# (b) a captured variable replaces the keyword-only parameter of the same name
k = 10
lam = parse_as_ast(lambda e: (lambda x, *, k=2: x * k)(e))
out = ast.unparse(lam)
got = eval(out)(3)
print(f"captured k=10: {out}   value at e=3: expected 6, got {got!r}")
if got != 6:
    print("PROBLEM: captured variable substituted for a keyword-only parameter")
    bad = True
sys.exit(1 if bad else 0)
