"""REGRESSION (4bddb63): reserve_arg_names now accepts arg_N with N as long as the int/str
conversion limit (4300 digits). A query that uses the name arg_99...9 (exactly limit-many nines)
moves the global counter to 10**limit, which has limit+1 digits: arg_name() then raises
ValueError ('Exceeds the limit ... for integer string conversion') - for that query and for every
later, perfectly ordinary query in the process (the counter is global and never goes back).
At 4bddb63~1 (18-digit bound) the long name was ignored - it cannot collide - and all is well.
The message's 'past which the counter cannot be formatted either' is off by one."""
import sys

sys.path.insert(0, sys.argv[1])
import ast
from func_adl.ast.function_simplifier import simplify_chained_calls

limit = getattr(sys, "get_int_max_str_digits", lambda: 0)()
if not limit:
    print("no int/str conversion limit in this interpreter: nothing to show")
    sys.exit(0)


def simp(src):
    try:
        return ast.unparse(simplify_chained_calls().visit(ast.parse(src).body[0].value))
    except Exception as ex:
        return "EXC " + type(ex).__name__ + ": " + str(ex)[:90]


plain = "Select(Select(ds, lambda x: x + 1), lambda y: y * 2)"
print("plain query first:      ", simp(plain))
big = "arg_" + "9" * limit
r = simp(f"Select(Select(ds, lambda x: x + {big}), lambda y: y * 2)")
print("query using arg_<9*%d>:" % limit, r[:110])
r2 = simp(plain)
print("plain query afterwards: ", r2)
sys.exit(1 if r.startswith("EXC") or r2.startswith("EXC") else 0)
