"""REGRESSION (4bddb63): methods of interpreter classes that happen to be heap types
(collections.deque, re.Pattern, array.array, collections.defaultdict, ... - C classes made with
PyType_FromSpec carry Py_TPFLAGS_HEAPTYPE) are now taken for declared classes.
 - deque.append / count / rotate, defaultdict.copy: ValueError 'no signature found for builtin'
 - re.Pattern.match / sub / split: the builtin's own defaults are written into the query
   (p.match('x') -> p.match('x', 0, 9223372036854775807))
At 4bddb63~1 all of these were emitted as written, type Any."""
import sys

sys.path.insert(0, sys.argv[1])
import ast, collections, re
from func_adl import ObjectStream
from func_adl.type_based_replacement import remap_by_types


class Evt:
    def pat(self) -> re.Pattern: ...
    def dq(self) -> collections.deque: ...


def run(src):
    s = ObjectStream[Evt](ast.Name(id="e", ctx=ast.Load()), Evt)
    try:
        _, na, t = remap_by_types(s, {"e": Evt}, ast.parse(src).body[0].value)
        return ast.unparse(na)
    except Exception as ex:
        return "EXC " + type(ex).__name__ + ": " + str(ex)[:120]


bad = 0
for src in ["e.dq().append(1)", "e.dq().count(1)", "e.pat().match('x')", "e.pat().split('a')"]:
    out = run(src)
    ok = out == src
    print(("ok   " if ok else "BAD  ") + src + "  =>  " + out)
    bad += not ok
sys.exit(1 if bad else 0)
