"""INCOMPLETE (4bddb63): 'List[int].count(1) ... raised AttributeError' is fixed for list but the
same call through Deque[int] / DefaultDict[str, int] still raises (AttributeError
'__parameters__' at 4bddb63~1, ValueError 'no signature found for builtin' at HEAD): the origin
classes are C heap types, see r1."""
import sys

sys.path.insert(0, sys.argv[1])
import ast
from typing import DefaultDict, Deque, List
from func_adl import ObjectStream
from func_adl.type_based_replacement import remap_by_types


class Evt:
    def lst(self) -> List[int]: ...
    def dq(self) -> Deque[int]: ...
    def dd(self) -> DefaultDict[str, int]: ...


bad = 0
for src in ["e.lst().count(1)", "e.dq().count(1)", "e.dd().copy()"]:
    s = ObjectStream[Evt](ast.Name(id="e", ctx=ast.Load()), Evt)
    try:
        _, na, t = remap_by_types(s, {"e": Evt}, ast.parse(src).body[0].value)
        out = ast.unparse(na)
    except Exception as ex:
        out = "EXC " + type(ex).__name__ + ": " + str(ex)[:120]
    print(("ok   " if out == src else "BAD  ") + src + "  =>  " + out)
    bad += out != src
sys.exit(1 if bad else 0)
