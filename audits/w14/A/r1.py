"""REGRESSION (67dbec6): reserve_arg_names no longer reserves arg_N names whose number has exactly
as many digits as the int/str conversion limit (4300).  But the counter itself can get there: a
name with limit-1 nines IS reserved and moves the counter to 10**(limit-1), a number of `limit`
digits, which arg_name() formats without trouble.  From then on the generated names are
arg_<limit digits> - exactly the family that is no longer reserved - so a query that uses such a
name has its variable captured by the simplifier.  At 67dbec6~1 (`<=`) those names were reserved
(only the all-nines one overflowed) and the query below is simplified correctly.
Only one name of that length (limit nines) cannot be followed by a formattable counter; the fix
dropped the whole length."""
import sys

sys.path.insert(0, sys.argv[1])
import ast

import func_adl.ast.function_simplifier as fs

limit = getattr(sys, "get_int_max_str_digits", lambda: 0)()
if not limit:
    print("no int/str conversion limit in this interpreter: nothing to show")
    sys.exit(0)


class E:
    def __init__(self, met, jets):
        self.met, self.jets = met, jets


class J:
    def __init__(self, pt):
        self.pt = pt


def Select(s, f):
    return [f(x) for x in s]


def short(s):
    import re

    return re.sub(r"arg_(\d{6})\d+(\d{4})", lambda m: f"arg_{m.group(1)}..{m.group(2)}", s)


ds = [E(100, [J(1), J(2)]), E(200, [J(3)])]
nines = "arg_" + "9" * (limit - 1)  # limit-1 digits: reserved, counter -> 10**(limit-1)
bad = False
for k in range(0, 4):
    at_limit = "arg_" + str(10 ** (limit - 1) + k)  # limit digits: not reserved at HEAD
    assert len(at_limit) - 4 == limit
    Q = (
        f"Select(Select(ds, lambda {nines}: {nines}), "
        f"lambda x: Select(x.jets, lambda {at_limit}: {at_limit}.pt + x.met))"
    )
    want = eval(Q)
    fs.argument_var_counter = 0
    try:
        text = "-"
        out = fs.simplify_chained_calls().visit(ast.parse(Q, mode="eval").body)
        text = short(ast.unparse(out))
        have = eval(compile(ast.fix_missing_locations(ast.Expression(out)), "<s>", "eval"))
    except Exception as e:
        have = f"raises {type(e).__name__}: {str(e)[:80]}"
    ok = have == want
    print(f"k={k}: {'ok ' if ok else 'BAD'} simplified: {text}\n      computes {have}, original computes {want}")
    bad |= not ok
sys.exit(1 if bad else 0)
