"""INCOMPLETE (67dbec6): 'an attribute written in C is left as written whatever its class' holds only
for the seven descriptor / builtin-function types listed in _c_level_attributes.  Other C-level
callables put on a declared class on purpose - operator.attrgetter / itemgetter / methodcaller
objects, functools.partial of a builtin, a builtin type used as a converter (conv = int) - still go
through the signature work and raise the very error the message quotes (ValueError 'no signature
found ...' / '... is not supported by signature'), while `upper = str.upper` or `ln = len` on the
same class are now emitted as written.  Same behaviour at 67dbec6~1 (not a regression)."""
import sys

sys.path.insert(0, sys.argv[1])
import ast
import functools
import logging
import operator

from func_adl import ObjectStream
from func_adl.type_based_replacement import remap_by_types

logging.disable(logging.CRITICAL)


class Jet:
    upper = str.upper  # method descriptor: left as written at HEAD
    ln = len  # builtin function: left as written at HEAD
    getter = operator.attrgetter("x")
    item = operator.itemgetter(0)
    caller = operator.methodcaller("x")
    part = functools.partial(int, base=2)
    conv = int

    def pt(self, scale: float = 1.0) -> float: ...


class Evt:
    def jet(self) -> Jet: ...


bad = False
for x in ["e.jet().pt()", "e.jet().upper()", "e.jet().ln()", "e.jet().getter()", "e.jet().item()",
          "e.jet().caller()", "e.jet().part('1')", "e.jet().conv()"]:
    s = ObjectStream[Evt](ast.Name("ds"), Evt)
    try:
        _, na, t = remap_by_types(s, {"e": Evt}, ast.parse(x).body[0].value)
        print(f"ok   {x:22} -> {ast.unparse(na)}")
    except Exception as ex:
        bad = True
        print(f"BAD  {x:22} -> {type(ex).__name__}: {str(ex)[:110]}")
sys.exit(1 if bad else 0)
