"""r1: a query using the name arg_<10**D - 2> (D = sys.get_int_max_str_digits(), a number Python
still reads and writes) makes simplify_chained_calls raise ValueError at 6d2d5ea; at 6d2d5ea~1 the
same query is simplified and evaluates to the right value.
usage: python r1.py <checkout root>      exit 1: problem present, 0: absent"""
import ast, sys, traceback
sys.path.insert(0, sys.argv[1])
from func_adl.ast.function_simplifier import simplify_chained_calls

D = getattr(sys, "get_int_max_str_digits", lambda: 0)()
if not D:
    print("no int/str digit limit in this interpreter: not applicable"); sys.exit(0)
name = "arg_" + "9" * (D - 1) + "8"          # D digits: int() and str() both accept it
Select = lambda s, f: [f(x) for x in s]
s = [1, 2, 3]
src = "Select(Select(Select(s, lambda %s: %s + 1), lambda y: y * 2), lambda z: z - 3)" % (name, name)
want = eval(src)
print("digit limit", D, "; name has", len(name) - 4, "digits; original evaluates to", want)
try:
    out = simplify_chained_calls().visit(ast.parse(src, mode="eval").body)
    got = eval(compile(ast.fix_missing_locations(ast.Expression(out)), "s", "eval"))
except Exception as e:
    print("PROBLEM: simplifier raised %s: %s" % (type(e).__name__, str(e)[:120]))
    tb = traceback.extract_tb(e.__traceback__)[-1]
    print("  at %s:%d in %s: %s" % (tb.filename.split("/")[-1], tb.lineno, tb.name, tb.line))
    sys.exit(1)
print("simplified evaluates to", got)
if got != want:
    print("PROBLEM: value differs"); sys.exit(1)
print("ok"); sys.exit(0)
