"""r2: after ONE query that mentions arg_<10**D - 2> (handled or not), every later, ordinary query
of the same process that needs two fresh names raises ValueError at 6d2d5ea (the counter persists
at 10**D - 1 and the second name cannot be formatted). At 6d2d5ea~1 later queries are unaffected.
usage: python r2.py <checkout root>      exit 1: problem present, 0: absent"""
import ast, sys
sys.path.insert(0, sys.argv[1])
from func_adl.ast.function_simplifier import simplify_chained_calls

D = getattr(sys, "get_int_max_str_digits", lambda: 0)()
if not D:
    print("no int/str digit limit in this interpreter: not applicable"); sys.exit(0)
name = "arg_" + "9" * (D - 1) + "8"
Select = lambda s, f: [f(x) for x in s]
s = [1, 2, 3]
# query 1: nothing to simplify, no fresh name needed -> succeeds on both versions
q1 = "Select(s, lambda %s: %s + 1)" % (name, name)
out1 = simplify_chained_calls().visit(ast.parse(q1, mode="eval").body)
print("query 1 (free of chained calls) done:",
      eval(compile(ast.fix_missing_locations(ast.Expression(out1)), "s", "eval")))
# query 2: no arg_N name at all
q2 = "Select(Select(s, lambda x: x + 1), lambda y: y * 2)"
want = eval(q2)
try:
    out2 = simplify_chained_calls().visit(ast.parse(q2, mode="eval").body)
    got = eval(compile(ast.fix_missing_locations(ast.Expression(out2)), "s", "eval"))
except Exception as e:
    print("PROBLEM: ordinary query 2 raised %s: %s" % (type(e).__name__, str(e)[:120])); sys.exit(1)
print("query 2:", got, "expected", want)
sys.exit(0 if got == want else 1)
