"""r3: convolute() called directly (no simplify_chained_calls.visit around it, so nothing reserved
the names of the arguments) captures a free variable arg_2 of g with the binder it generates.
Present at 6d2d5ea and at 6d2d5ea~1 (incomplete case, not a regression).
usage: python r3.py <checkout root>      exit 1: problem present, 0: absent"""
import ast, sys
sys.path.insert(0, sys.argv[1])
from func_adl.ast.function_simplifier import convolute

arg_2 = 100
g = ast.parse("lambda y: y + arg_2", mode="eval").body
f = ast.parse("lambda x: x * 2", mode="eval").body
want = (lambda y: y + arg_2)((lambda x: x * 2)(5))
out = convolute(g, f)
print("convolute(g, f) =", ast.unparse(out))
h = eval(compile(ast.fix_missing_locations(ast.Expression(out)), "s", "eval"))
got = h(5)
print("g(f(5)) =", want, "; convoluted(5) =", got)
if got != want:
    print("PROBLEM: free variable arg_2 captured by the generated parameter"); sys.exit(1)
sys.exit(0)
